(** C05 — Every primary and its argument language is recognised exactly (the accepting side),
    with the word-level lifts of C01 (acceptance = grammar) and C13 (leading options).
    Statements only; proofs are in Proofs/LexArgs.v, LexPrimary.v, LexSentence.v, WordLevel.v.
    Vocabulary: Spec/Vocabulary.v (the table [Primary ws l]: words -> leaf, the argument
    languages, the operator words), Spec/Surface.v (gaps, what may follow a word, sentences with
    their layout, [render], [tokens_of], [leading_toks]), Spec/Grammar.v ([GList]).
    Finding D15: numbers, sizes, times and type lists are bare words only (see Spec/Vocabulary.v). *)
From Coq Require Import List String NArith Bool.
From FP Require Import Model.Chars Model.Winnow Model.Ast Model.Args Model.Lex Model.Prec Model.Parse.
From FP Require Import Spec.Decimal Spec.Vocabulary Spec.Surface Spec.Written Spec.Grammar.
From FP Require Import Proofs.OptionsFacts Proofs.LexPrimary Proofs.LexSentence Proofs.WordLevel.
From FP Require Import Proofs.SurfaceExamples.
Import ListNotations.
Local Open Scope N_scope.

(** ** One word group *)

(** every primary of the vocabulary, written with any non-empty blank gaps between its words and
    followed by anything that may follow it, is read as exactly the leaf it denotes, and the
    cursor is left exactly after its last word — also when its keyword is a prefix or an
    extension of another one *)
Theorem C05_token : forall ws l, Primary ws l -> forall gaps rest,
  gaps_for ws gaps -> ends_ok l rest ->
  parse_token (weave ws gaps ++ rest) = (Ok (KPrim l), rest).
Proof. exact primary_token. Qed.

(** the condition on what follows cannot be weakened to "any word end" for every primary: an
    unquoted string argument runs on through ( ! and , and a type list through ',' and a
    letter.  (REFUTED: the uniform statement with [at_word_end rest] for all primaries.) *)
Theorem C05_uniform_word_end_refuted :
  at_word_end (chars ",x")
  /\ parse_token (chars "-name foo" ++ chars ",x") = (Ok (KPrim (LTest (TName (chars "foo,x")))), [])
  /\ parse_token (chars "-type f" ++ chars ",d") = (Ok (KPrim (LTest (TType [FFile; FDirectory]))), []).
Proof. split; [right; right; right; right; reflexivity|]. split; vm_compute; reflexivity. Qed.

(** ( ) ! , are operators wherever they stand *)
Theorem C05_operator_char : forall o i, single_char o = true ->
  parse_token (op_text o ++ i) = (Ok (op_token o), i).
Proof. exact tok_single. Qed.

(** -a -and -o -or are operators at the end of the input and before a blank (they take the
    blanks with them) *)
Theorem C05_operator_word_end : forall o, single_char o = false ->
  parse_token (op_text o) = (Ok (op_token o), []).
Proof. exact opword_at_end. Qed.
Theorem C05_operator_word_blank : forall o b more,
  single_char o = false -> gap b -> not_starting_with Blank more ->
  parse_token (op_text o ++ b ++ more) = (Ok (op_token o), more).
Proof. exact opword_blank. Qed.

(** ** Sentences *)

(** the lexer returns exactly the tokens of a well-formed sentence and consumes all of it *)
Theorem C05_lex : forall s, wf_sentence s -> body s <> [] ->
  lex (render s) = (Ok (tokens_of s), []).
Proof. exact lex_render. Qed.

(** a primary embedded in a sentence yields its leaf at its place *)
Theorem C05_accept_embedded : forall s sp ws gaps l,
  wf_sentence s -> In (sp, IPrim ws gaps l) (body s) ->
  lex (render s) = (Ok (tokens_of s), []) /\ In (KPrim l) (tokens_of s).
Proof. exact embedded_primary. Qed.

(** a primary alone, with any blanks around it, parses to exactly its node ... *)
Theorem C05_accept_single : forall ws l gaps b1 b2,
  Primary ws l -> gaps_for ws gaps -> (forall g, l <> LGlobal g) -> blanks b1 -> blanks b2 ->
  parse (b1 ++ weave ws gaps ++ b2) = ParseOk default_options (leaf_expr l).
Proof. exact single_primary. Qed.
(** ... and an option alone sets the option; the expression is then -true *)
Theorem C05_accept_option : forall ws g gaps b1 b2,
  Primary ws (LGlobal g) -> gaps_for ws gaps -> blanks b1 -> blanks b2 ->
  parse (b1 ++ weave ws gaps ++ b2) = ParseOk (opts_for [g]) (ETest TTrue).
Proof. exact single_option. Qed.

(** the result of parsing a well-formed sentence is a function of its tokens *)
Theorem C05_parse_sentence : forall s, wf_sentence s -> parse (render s) = result_of (tokens_of s).
Proof. exact parse_render. Qed.

(** ** C01 at word level: a sentence is accepted exactly when its tokens (after the leading
    options; options inside read as -true; nothing left means -true) are a sentence of the
    grammar, the tree is the grammar's, and anything else is the grammar error *)
Theorem C01_words : forall s gs r,
  wf_sentence s -> leading_toks false (tokens_of s) = (gs, r) ->
  (forall e, GList (map detrue (run_tokens r)) e ->
     parse (render s) = ParseOk (opts_for (gs ++ globals_of (run_tokens r))) e)
  /\ ((forall e, ~ GList (map detrue (run_tokens r)) e) -> parse (render s) = grammar_error)
  /\ (forall o e, parse (render s) = ParseOk o e ->
        GList (map detrue (run_tokens r)) e /\ o = opts_for (gs ++ globals_of (run_tokens r))).
Proof. exact words_grammar. Qed.

(** ** C13 at word level: a leading run of options (with the ANDs written after them) leaves
    the result for the rest untouched, except that the options of the run are registered first *)
Theorem C13_leading : forall lead rest tr gs,
  wf_sentence {| body := lead ++ rest; trail := tr |} ->
  leading_toks false (tokens_of {| body := lead ++ rest; trail := tr |})
    = (gs, tokens_of {| body := rest; trail := tr |}) ->
  parse (render {| body := lead ++ rest; trail := tr |})
  = with_leading gs (parse (render {| body := rest; trail := tr |})).
Proof. exact leading_run_rest. Qed.

(** the leading pass itself: it returns the options [leading_toks] describes and hands on the
    text of the remaining items *)
Theorem C13_leading_pass : forall s, wf_sentence s ->
  exists rest_items,
    leading_toks false (tokens_of s) = (fst (leading_body false (body s)), toks rest_items)
    /\ leading_options (render s)
       = (Ok (fst (leading_body false (body s))), text (trail s) rest_items).
Proof. exact leading_options_render. Qed.

(** ** Non-vacuity *)
(** keywords that are prefixes or extensions of one another *)
Example C05_example_prefixes :
  fst (parse_token (chars "-print)")) = Ok (KPrim (LAction APrint))
  /\ fst (parse_token (chars "-print0 ")) = Ok (KPrim (LAction APrintNull))
  /\ fst (parse_token (chars "-printf %p")) = Ok (KPrim (LAction (APrintFormatted [EField FName])))
  /\ fst (parse_token (chars "-print-file-fid")) = Ok (KPrim (LAction APrintFid))
  /\ fst (parse_token (chars "-fprint f")) = Ok (KPrim (LAction (AFilePrint (chars "f"))))
  /\ fst (parse_token (chars "-fprint0 f")) = Ok (KPrim (LAction (AFilePrintNull (chars "f"))))
  /\ fst (parse_token (chars "-xattr a")) = Ok (KPrim (LTest (TXattr (chars "a"))))
  /\ fst (parse_token (chars "-xattr-match a b")) = Ok (KPrim (LTest (TXattrMatch (chars "a") (chars "b"))))
  /\ fst (parse_token (chars "-a ")) = Ok KAnd
  /\ fst (parse_token (chars "-amin 5")) = Ok (KPrim (LTest (TAccessTime (Eq (Time UMinute 5)))))
  /\ fst (parse_token (chars "-and")) = Ok KAnd
  /\ fst (parse_token (chars "-o")) = Ok KOr
  /\ fst (parse_token (chars "-or ")) = Ok KOr.
Proof. vm_compute. repeat split. Qed.

(** a well-formed sentence that is not in the grammar, and the split of a sentence into its
    leading run and the rest *)
Example C01_words_example_reject :
  wf_sentence dangling /\ render dangling = chars "-print -o"
  /\ leading_toks false (tokens_of dangling) = ([], tokens_of dangling)
  /\ (forall e, ~ GList (map detrue (run_tokens (tokens_of dangling))) e)
  /\ parse (render dangling) = grammar_error.
Proof.
  split; [exact dangling_wf|]. split; [reflexivity|]. split; [reflexivity|].
  split; [exact dangling_not_grammatical|]. vm_compute. reflexivity.
Qed.
Example C13_leading_example :
  let b := body (written_sentence ex1 bs1 []) in
  wf_sentence {| body := firstn 2 b ++ skipn 2 b; trail := [] |}
  /\ leading_toks false (tokens_of {| body := firstn 2 b ++ skipn 2 b; trail := [] |})
     = ([GThreads 3; GDepth], tokens_of {| body := skipn 2 b; trail := [] |})
  /\ parse (render {| body := skipn 2 b; trail := [] |})
     = ParseOk default_options
         (EAnd (EOr (ETest (TName (chars "a b"))) (ETest (TUserId (Gt 5)))) (EAction APrint)).
Proof. split; [exact ex1_wf|]. split; vm_compute; reflexivity. Qed.

(** a well-formed sentence with leading options, every kind of junction and a quoted word *)
Example C05_example_sentence :
  wf_sentence (written_sentence ex1 bs1 [])
  /\ render (written_sentence ex1 bs1 []) = chars "-threads 3 -depth ( -name 'a b' -o -uid +5 ) -print"
  /\ parse (render (written_sentence ex1 bs1 []))
     = ParseOk {| opt_depth := true; opt_threads := Some 3 |}
         (EAnd (EOr (ETest (TName (chars "a b"))) (ETest (TUserId (Gt 5)))) (EAction APrint)).
Proof. split; [exact ex1_wf|]. split; vm_compute; reflexivity. Qed.
