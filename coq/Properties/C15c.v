(** C15 (two clocks) — compiling one expression at two different times gives the same outcome
    class, the same error or panic, and on success the same definitions, destination table,
    framing, init/fini forms and thread count; the bodies are equal once the NOW numeral of every
    time form is masked (Spec/ClockMask.v).  The embedded readings lie within whatever bounds
    the clock readings lie within (start and end of the compile call).
    Recogniser: Spec/ClockForm.v; mask and relation: Spec/ClockMask.v. *)
From Coq Require Import List NArith String.
From FP Require Import Model.Chars Model.Ast Model.Sexp Model.Compile.
From FP Require Import Spec.ClockForm Spec.ClockMask Proofs.TwoClocks.
Import ListNotations.
Local Open Scope N_scope.

(** the form of a time test, masked, does not depend on the reading *)
Theorem C15c_time_form_masked : forall now1 now2 c,
  mask_clock (compile_time now1 "atime" c) = mask_clock (compile_time now2 "atime" c)
  /\ mask_clock (compile_time now1 "ctime" c) = mask_clock (compile_time now2 "ctime" c)
  /\ mask_clock (compile_time now1 "mtime" c) = mask_clock (compile_time now2 "mtime" c).
Proof. exact mask_clock_time3. Qed.

(** any two clocks: same class, same error / panic, and on success equal but for the readings *)
Theorem C15c_same_but_clock : forall e o c1 c2,
  same_but_clock (compile e o c1) (compile e o c2).
Proof. exact compile_same_but_clock. Qed.

Theorem C15c_two_clocks_ok : forall e o c1 c2 p1 p2,
  compile e o c1 = COk p1 -> compile e o c2 = COk p2 ->
  c_framed p1 = c_framed p2 /\ c_defs p1 = c_defs p2 /\ c_init p1 = c_init p2
  /\ c_fini p1 = c_fini p2 /\ c_threads p1 = c_threads p2 /\ c_iomap p1 = c_iomap p2
  /\ mask_clock (c_body p1) = mask_clock (c_body p2).
Proof. exact compile_two_clocks_ok. Qed.

Theorem C15c_two_clocks_class : forall e o c1 c2,
  (forall p1, compile e o c1 = COk p1 -> exists p2, compile e o c2 = COk p2)
  /\ (forall k n, compile e o c1 = CErr k n -> compile e o c2 = CErr k n)
  /\ (forall s, compile e o c1 = CPanic s -> compile e o c2 = CPanic s).
Proof. exact compile_two_clocks_class. Qed.

(** the embedded readings lie between the bounds of the clock *)
Theorem C15c_readings_bounded : forall e o clk c lo hi,
  compile e o clk = COk c ->
  (count_time_tests e <= List.length clk)%nat ->
  Forall (fun t => lo <= t <= hi) clk ->
  Forall (fun t => lo <= t <= hi) (clock_readings (c_body c)).
Proof. exact compile_readings_bounded. Qed.

Theorem C15c_readings_count : forall e o clk c,
  compile e o clk = COk c ->
  (count_time_tests e <= List.length clk)%nat ->
  List.length (clock_readings (c_body c)) = count_time_tests e.
Proof. exact compile_readings_count. Qed.

(** two clocks with no reading in common: the bodies differ, the masked bodies and all else agree *)
Example C15c_example :
  let e := EAnd (ETest (TAccessTime (Gt (Time UMinute 5))))
             (EOr (ETest (TName [97]))
                  (EAnd (ETest (TModifyTime (Lt (Time UDay 1))))
                        (EAction (AFilePrint [111])))) in
  exists p1 p2, compile e default_options [1700000000; 1700000001] = COk p1
     /\ compile e default_options [1800000000; 1800000002] = COk p2
     /\ c_body p1 <> c_body p2
     /\ mask_clock (c_body p1) = mask_clock (c_body p2)
     /\ c_defs p1 = c_defs p2 /\ c_defs p1 <> []
     /\ Forall (fun t => 1700000000 <= t <= 1700000001) (clock_readings (c_body p1)).
Proof.
  do 2 eexists. split; [vm_compute; reflexivity|]. split; [vm_compute; reflexivity|].
  split; [vm_compute; discriminate|]. split; [vm_compute; reflexivity|].
  split; [vm_compute; reflexivity|]. split; [vm_compute; discriminate|].
  match goal with |- Forall _ ?l =>
    replace l with [1700000000; 1700000001] by (vm_compute; reflexivity) end.
  repeat constructor; vm_compute; discriminate.
Qed.

(** the mask hides the reading only: another threshold, unit, field or operator still shows *)
Example C15c_mask_keeps_rest :
  let b t := match compile (ETest t) default_options [7] with COk p => mask_clock (c_body p) | _ => LAtom [] end in
  b (TAccessTime (Gt (Time UMinute 5))) <> b (TAccessTime (Gt (Time UMinute 6)))
  /\ b (TAccessTime (Gt (Time UMinute 5))) <> b (TAccessTime (Gt (Time UDay 5)))
  /\ b (TAccessTime (Gt (Time UMinute 5))) <> b (TModifyTime (Gt (Time UMinute 5)))
  /\ b (TAccessTime (Gt (Time UMinute 5))) <> b (TAccessTime (Lt (Time UMinute 5)))
  /\ b (TAccessTime (Gt (Time UMinute 5))) =
     lst [atom "and"; lst [atom ">"; lst [atom "quotient"; lst [atom "-"; LAtom now_mark; lst [atom "atime"]]; atom "60"]; atom "5"];
          lst [atom "print-relative-path"]].
Proof. repeat split; vm_compute; try discriminate; reflexivity. Qed.
