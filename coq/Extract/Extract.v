(** Extraction of the executable model for the correspondence check: ExtrOcamlBasic only
    (bool, option, unit, list, prod, sumbool, sumor to the OCaml natives; andb/orb inlined);
    no Extract Constant / Extract Inductive of our own. *)
Require Extraction.
Require Import ExtrOcamlBasic.
From FP Require Import Model.Obs.
Extraction Language OCaml.
Extraction "../ocaml/model.ml" Obs.run_case.
