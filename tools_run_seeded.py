#!/usr/bin/env python3
"""Applies each confirmed seeded change to /repo, runs the property's quick check, undoes it.
Development tool (not a registered check). Results go to seeded/RESULTS.json."""
import json, os, re, subprocess, sys
ROOT = os.path.dirname(os.path.abspath(__file__))
def sh(cmd, cwd=None, env=None, timeout=3600):
    e = dict(os.environ); e.update(env or {})
    p = subprocess.run(cmd, shell=True, cwd=cwd, capture_output=True, text=True, timeout=timeout, env=e)
    return p.returncode, p.stdout + p.stderr
only = sys.argv[1:]
res = {}
resfile = os.path.join(ROOT, "seeded", "RESULTS.json")
if os.path.exists(resfile):
    res = json.load(open(resfile))
assert sh("git -C /repo status --porcelain")[1].strip() == "", "/repo not clean"
for name in sorted(os.listdir(os.path.join(ROOT, "seeded"))):
    d = os.path.join(ROOT, "seeded", name)
    if not os.path.isdir(d) or (only and not any(name.startswith(o) for o in only)):
        continue
    prop = name.split("-")[0]
    rc, out = sh("git -C /repo apply %s/patch.diff" % d)
    if rc != 0:
        res[name] = {"error": "patch does not apply: " + out[-200:]}; continue
    try:
        env = {"VERIF_SKIP_COQ": "1"} if os.environ.get("VERIF_SKIP_COQ") else {}
        rc, out = sh("./check %s --tier quick" % prop, cwd=ROOT, env=env)
    finally:
        sh("git -C /repo checkout -- . && git -C /repo clean -fdq")
    viol = [l for l in out.split("\n") if l.startswith("VIOLATION")]
    summ = [l for l in out.split("\n") if re.match(r"C\d+ quick", l)]
    res[name] = {"exit": rc, "violation": viol[:1], "summary": summ[:1],
                 "detected": rc == 1 and bool(viol),
                 "with_failing_input": bool(viol) and "no-failing-input-found" not in viol[0]}
    print(name, res[name]["detected"], viol[:1], summ[:1], flush=True)
    json.dump(res, open(resfile, "w"), indent=1)
assert sh("git -C /repo status --porcelain")[1].strip() == "", "/repo left dirty"
