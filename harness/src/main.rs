//! Correspondence harness: runs the library built from /repo's current working tree on the cases
//! read from stdin (one per line) and prints one canonical observation line per case.
//! The same cases are run through the OCaml program extracted from the Coq model; `check` diffs.
//!
//! Case syntax (fields separated by one space, strings as dot-separated hex code points):
//!   P  <str>                    parse
//!   PC <str> <mdt>              parse, compile, render for device <mdt>
//!   T  <tree tokens...>         helpers on a tree built through the public constructors
//!   TC <depth> <threads|-> <mdt> <tree tokens...>   compile a constructed tree
//!   R  <str> <n> <mdt>*n        parse, compile, then n renders interleaved with io_map queries
//!   U  <sizeunit> <n>           Size helpers    V <timeunit> <n>   TimeSpec helper
//!   D  <str> <mdt> <k>          parse+compile+render k times in this process
use lipe_find_parser::ast::*;
use lipe_find_parser::{compile, parse, Mode, RunOptions, Target};
use std::io::{BufRead, Write};
use std::panic::{catch_unwind, AssertUnwindSafe};
use std::rc::Rc;
use std::time::{SystemTime, UNIX_EPOCH};

fn hex_to_string(h: &str) -> String {
    if h == "-" || h.is_empty() {
        return String::new();
    }
    h.split('.')
        .map(|x| char::from_u32(u32::from_str_radix(x, 16).unwrap()).unwrap())
        .collect()
}

fn ser_str(s: &str) -> String {
    let mut out = String::from("S");
    let mut first = true;
    for c in s.chars() {
        if !first {
            out.push('.');
        }
        first = false;
        out.push_str(&format!("{:x}", c as u32));
    }
    out
}

/// Printable ASCII except backslash stays, everything else becomes \x<hex>;
fn esc(s: &str) -> String {
    let mut out = String::new();
    for c in s.chars() {
        let n = c as u32;
        if (32..127).contains(&n) && c != '\\' {
            out.push(c);
        } else {
            out.push_str(&format!("\\x{:x};", n));
        }
    }
    out
}

/// `Variant("payload")` as Rust's derived Debug prints a one-field tuple variant holding a String:
/// the variant name and the payload with the Debug escapes of `str` undone
fn split_debug(d: &str) -> (String, String) {
    let open = match d.find('(') {
        Some(i) => i,
        None => return (d.to_string(), String::new()),
    };
    let variant = d[..open].to_string();
    let inner = &d[open + 1..d.len().saturating_sub(1)];
    let inner = inner.strip_prefix('"').and_then(|x| x.strip_suffix('"')).unwrap_or(inner);
    let mut out = String::new();
    let mut it = inner.chars().peekable();
    while let Some(c) = it.next() {
        if c != '\\' {
            out.push(c);
            continue;
        }
        match it.next() {
            Some('n') => out.push('\n'),
            Some('r') => out.push('\r'),
            Some('t') => out.push('\t'),
            Some('0') => out.push('\0'),
            Some('u') => {
                let mut hex = String::new();
                it.next();
                while let Some(&h) = it.peek() {
                    it.next();
                    if h == '}' {
                        break;
                    }
                    hex.push(h);
                }
                out.push(u32::from_str_radix(&hex, 16).ok().and_then(char::from_u32).unwrap_or('?'));
            }
            Some(o) => out.push(o),
            None => {}
        }
    }
    (variant, out)
}

fn ser_cmp<T>(c: &Comparison<T>, f: impl Fn(&T) -> String) -> String {
    match c {
        Comparison::GreaterThan(v) => format!("Gt {}", f(v)),
        Comparison::LesserThan(v) => format!("Lt {}", f(v)),
        Comparison::Equal(v) => format!("Eq {}", f(v)),
    }
}

fn ser_time(t: &TimeSpec) -> String {
    match t {
        TimeSpec::Second(n) => format!("Second {n}"),
        TimeSpec::Minute(n) => format!("Minute {n}"),
        TimeSpec::Hour(n) => format!("Hour {n}"),
        TimeSpec::Day(n) => format!("Day {n}"),
    }
}

fn ser_size(t: &Size) -> String {
    match t {
        Size::Byte(n) => format!("Byte {n}"),
        Size::Word(n) => format!("Word {n}"),
        Size::Block(n) => format!("Block {n}"),
        Size::KiloByte(n) => format!("KiloByte {n}"),
        Size::MegaByte(n) => format!("MegaByte {n}"),
        Size::GigaByte(n) => format!("GigaByte {n}"),
        Size::TeraByte(n) => format!("TeraByte {n}"),
    }
}

fn ser_ft(t: &FileType) -> &'static str {
    match t {
        FileType::Block => "Block",
        FileType::Character => "Character",
        FileType::Directory => "Directory",
        FileType::Pipe => "Pipe",
        FileType::File => "File",
        FileType::Link => "Link",
        FileType::Socket => "Socket",
    }
}

fn ser_test(t: &Test) -> String {
    let n32 = |n: &u32| n.to_string();
    let n64 = |n: &u64| n.to_string();
    match t {
        Test::AccessTime(c) => format!("AccessTime {}", ser_cmp(c, ser_time)),
        Test::ChangeTime(c) => format!("ChangeTime {}", ser_cmp(c, ser_time)),
        Test::ModifyTime(c) => format!("ModifyTime {}", ser_cmp(c, ser_time)),
        Test::Empty => "Empty".into(),
        Test::Executable => "Executable".into(),
        Test::False => "False".into(),
        Test::GroupId(c) => format!("GroupId {}", ser_cmp(c, n32)),
        Test::InodeNumber(c) => format!("InodeNumber {}", ser_cmp(c, n32)),
        Test::InsensitiveName(s) => format!("InsensitiveName {}", ser_str(s)),
        Test::InsensitivePath(s) => format!("InsensitivePath {}", ser_str(s)),
        Test::Links(c) => format!("Links {}", ser_cmp(c, n64)),
        Test::MirrorCount(c) => format!("MirrorCount {}", ser_cmp(c, n32)),
        Test::Name(s) => format!("Name {}", ser_str(s)),
        Test::Path(s) => format!("Path {}", ser_str(s)),
        Test::Perm(p) => match p {
            PermCheck::AtLeast(Permission(m)) => format!("Perm AtLeast {}", m.bits()),
            PermCheck::Any(Permission(m)) => format!("Perm Any {}", m.bits()),
            PermCheck::Equal(Permission(m)) => format!("Perm Equal {}", m.bits()),
        },
        Test::Pool(s) => format!("Pool {}", ser_str(s)),
        Test::Readable => "Readable".into(),
        Test::Size(c) => format!("Size {}", ser_cmp(c, ser_size)),
        Test::StripeCount(c) => format!("StripeCount {}", ser_cmp(c, n32)),
        Test::True => "True".into(),
        Test::Type(l) => {
            let mut s = format!("Type {}", l.len());
            for t in l {
                s.push(' ');
                s.push_str(ser_ft(t));
            }
            s
        }
        Test::UserId(c) => format!("UserId {}", ser_cmp(c, n32)),
        Test::Writable => "Writable".into(),
        Test::Xattr(s) => format!("Xattr {}", ser_str(s)),
        Test::XattrMatch(a, b) => format!("XattrMatch {} {}", ser_str(a), ser_str(b)),
        Test::AccessNewer(s) => format!("AccessNewer {}", ser_str(s)),
        Test::ChangeNewer(s) => format!("ChangeNewer {}", ser_str(s)),
        Test::FsType(s) => format!("FsType {}", ser_str(s)),
        Test::Group(s) => format!("Group {}", ser_str(s)),
        Test::InsensitiveLinkName(s) => format!("InsensitiveLinkName {}", ser_str(s)),
        Test::InsensitiveRegex(s) => format!("InsensitiveRegex {}", ser_str(s)),
        Test::LinkName(s) => format!("LinkName {}", ser_str(s)),
        Test::ModifyNewer(s) => format!("ModifyNewer {}", ser_str(s)),
        Test::NoGroup => "NoGroup".into(),
        Test::NoUser => "NoUser".into(),
        Test::Regex(s) => format!("Regex {}", ser_str(s)),
        Test::Samefile(s) => format!("Samefile {}", ser_str(s)),
        Test::User(s) => format!("User {}", ser_str(s)),
    }
}

fn ser_field(f: &FormatField) -> String {
    match f {
        FormatField::AccessFormatted(c) => format!("AccessFormatted {:x}", *c as u32),
        FormatField::ChangeFormatted(c) => format!("ChangeFormatted {:x}", *c as u32),
        FormatField::ModifyFormatted(c) => format!("ModifyFormatted {:x}", *c as u32),
        FormatField::XAttr(s) => format!("XAttr {}", ser_str(s)),
        other => format!("{other:?}"),
    }
}

fn ser_special(f: &FormatSpecial) -> String {
    match f {
        FormatSpecial::Ascii(n) => format!("Ascii {n}"),
        other => format!("{other:?}"),
    }
}

fn ser_fmt(l: &[FormatElement]) -> String {
    let mut s = l.len().to_string();
    for e in l {
        s.push(' ');
        match e {
            FormatElement::Literal(t) => s.push_str(&format!("L {}", ser_str(t))),
            FormatElement::Field(f) => s.push_str(&format!("F {}", ser_field(f))),
            FormatElement::Special(f) => s.push_str(&format!("X {}", ser_special(f))),
        }
    }
    s
}

#[allow(deprecated)]
fn ser_action(a: &Action) -> String {
    match a {
        Action::FileList(s) => format!("FileList {}", ser_str(s)),
        Action::FilePrint(s) => format!("FilePrint {}", ser_str(s)),
        Action::FilePrintNull(s) => format!("FilePrintNull {}", ser_str(s)),
        Action::FilePrintFormatted(s, f) => {
            format!("FilePrintFormatted {} {}", ser_str(s), ser_fmt(f))
        }
        Action::List => "List".into(),
        Action::Print => "Print".into(),
        Action::PrintNull => "PrintNull".into(),
        Action::PrintFormatted(f) => format!("PrintFormatted {}", ser_fmt(f)),
        Action::PrintFid => "PrintFid".into(),
        Action::Prune => "Prune".into(),
        Action::Quit => "Quit".into(),
        Action::DefaultPrint => "DefaultPrint".into(),
    }
}

fn ser_global(g: &GlobalOption) -> String {
    match g {
        GlobalOption::Depth => "Depth".into(),
        GlobalOption::MaxDepth(n) => format!("MaxDepth {n}"),
        GlobalOption::MinDepth(n) => format!("MinDepth {n}"),
        GlobalOption::Threads(n) => format!("Threads {n}"),
    }
}

fn ser_expr(e: &Expression, out: &mut String) {
    match e {
        Expression::Operator(o) => match o.as_ref() {
            Operator::Precedence(a) => {
                out.push_str("Prec ");
                ser_expr(a, out)
            }
            Operator::Not(a) => {
                out.push_str("Not ");
                ser_expr(a, out)
            }
            Operator::And(a, b) => {
                out.push_str("And ");
                ser_expr(a, out);
                out.push(' ');
                ser_expr(b, out)
            }
            Operator::Or(a, b) => {
                out.push_str("Or ");
                ser_expr(a, out);
                out.push(' ');
                ser_expr(b, out)
            }
            Operator::List(a, b) => {
                out.push_str("List ");
                ser_expr(a, out);
                out.push(' ');
                ser_expr(b, out)
            }
        },
        Expression::Test(t) => {
            out.push_str("T ");
            out.push_str(&ser_test(t))
        }
        Expression::Action(a) => {
            out.push_str("A ");
            out.push_str(&ser_action(a))
        }
        Expression::Global(g) => {
            out.push_str("G ");
            out.push_str(&ser_global(g))
        }
        Expression::Positional(PositionalOption::XDev) => out.push_str("P XDev"),
    }
}

// ---------------------------------------------------------------- deserialisation (tree cases)

struct Toks<'a> {
    v: Vec<&'a str>,
    i: usize,
}

impl<'a> Toks<'a> {
    fn next(&mut self) -> &'a str {
        let t = self.v[self.i];
        self.i += 1;
        t
    }
    fn num<T: std::str::FromStr>(&mut self) -> T
    where
        T::Err: std::fmt::Debug,
    {
        self.next().parse::<T>().unwrap()
    }
    fn string(&mut self) -> String {
        let t = self.next();
        assert!(t.starts_with('S'));
        hex_to_string(&t[1..])
    }
}

fn de_cmp<T>(t: &mut Toks, f: impl Fn(&mut Toks) -> T) -> Comparison<T> {
    match t.next() {
        "Gt" => Comparison::GreaterThan(f(t)),
        "Lt" => Comparison::LesserThan(f(t)),
        "Eq" => Comparison::Equal(f(t)),
        x => panic!("bad cmp {x}"),
    }
}

fn de_time(t: &mut Toks) -> TimeSpec {
    let u = t.next();
    let n: u64 = t.num();
    match u {
        "Second" => TimeSpec::Second(n),
        "Minute" => TimeSpec::Minute(n),
        "Hour" => TimeSpec::Hour(n),
        "Day" => TimeSpec::Day(n),
        x => panic!("bad time {x}"),
    }
}

fn de_size(t: &mut Toks) -> Size {
    let u = t.next();
    let n: u64 = t.num();
    match u {
        "Byte" => Size::Byte(n),
        "Word" => Size::Word(n),
        "Block" => Size::Block(n),
        "KiloByte" => Size::KiloByte(n),
        "MegaByte" => Size::MegaByte(n),
        "GigaByte" => Size::GigaByte(n),
        "TeraByte" => Size::TeraByte(n),
        x => panic!("bad size {x}"),
    }
}

fn de_ft(t: &mut Toks) -> FileType {
    match t.next() {
        "Block" => FileType::Block,
        "Character" => FileType::Character,
        "Directory" => FileType::Directory,
        "Pipe" => FileType::Pipe,
        "File" => FileType::File,
        "Link" => FileType::Link,
        "Socket" => FileType::Socket,
        x => panic!("bad ft {x}"),
    }
}

fn de_test(t: &mut Toks) -> Test {
    match t.next() {
        "AccessTime" => Test::AccessTime(de_cmp(t, de_time)),
        "ChangeTime" => Test::ChangeTime(de_cmp(t, de_time)),
        "ModifyTime" => Test::ModifyTime(de_cmp(t, de_time)),
        "Empty" => Test::Empty,
        "Executable" => Test::Executable,
        "False" => Test::False,
        "GroupId" => Test::GroupId(de_cmp(t, |t| t.num())),
        "InodeNumber" => Test::InodeNumber(de_cmp(t, |t| t.num())),
        "InsensitiveName" => Test::InsensitiveName(t.string()),
        "InsensitivePath" => Test::InsensitivePath(t.string()),
        "Links" => Test::Links(de_cmp(t, |t| t.num())),
        "MirrorCount" => Test::MirrorCount(de_cmp(t, |t| t.num())),
        "Name" => Test::Name(t.string()),
        "Path" => Test::Path(t.string()),
        "Perm" => {
            let k = t.next();
            let bits: u32 = t.num();
            let p = Permission(Mode::from_bits_retain(bits));      // every bit of the u32, as the public API allows
            match k {
                "AtLeast" => Test::Perm(PermCheck::AtLeast(p)),
                "Any" => Test::Perm(PermCheck::Any(p)),
                "Equal" => Test::Perm(PermCheck::Equal(p)),
                x => panic!("bad perm {x}"),
            }
        }
        "Pool" => Test::Pool(t.string()),
        "Readable" => Test::Readable,
        "Size" => Test::Size(de_cmp(t, de_size)),
        "StripeCount" => Test::StripeCount(de_cmp(t, |t| t.num())),
        "True" => Test::True,
        "Type" => {
            let n: usize = t.num();
            Test::Type((0..n).map(|_| de_ft(t)).collect())
        }
        "UserId" => Test::UserId(de_cmp(t, |t| t.num())),
        "Writable" => Test::Writable,
        "Xattr" => Test::Xattr(t.string()),
        "XattrMatch" => {
            let a = t.string();
            let b = t.string();
            Test::XattrMatch(a, b)
        }
        "AccessNewer" => Test::AccessNewer(t.string()),
        "ChangeNewer" => Test::ChangeNewer(t.string()),
        "FsType" => Test::FsType(t.string()),
        "Group" => Test::Group(t.string()),
        "InsensitiveLinkName" => Test::InsensitiveLinkName(t.string()),
        "InsensitiveRegex" => Test::InsensitiveRegex(t.string()),
        "LinkName" => Test::LinkName(t.string()),
        "ModifyNewer" => Test::ModifyNewer(t.string()),
        "NoGroup" => Test::NoGroup,
        "NoUser" => Test::NoUser,
        "Regex" => Test::Regex(t.string()),
        "Samefile" => Test::Samefile(t.string()),
        "User" => Test::User(t.string()),
        x => panic!("bad test {x}"),
    }
}

fn de_char(t: &mut Toks) -> char {
    char::from_u32(u32::from_str_radix(t.next(), 16).unwrap()).unwrap()
}

fn de_field(t: &mut Toks) -> FormatField {
    use FormatField::*;
    match t.next() {
        "Percent" => Percent,
        "Access" => Access,
        "AccessFormatted" => AccessFormatted(de_char(t)),
        "DiskSizeBlocks" => DiskSizeBlocks,
        "Change" => Change,
        "ChangeFormatted" => ChangeFormatted(de_char(t)),
        "Depth" => Depth,
        "DeviceNumber" => DeviceNumber,
        "Basename" => Basename,
        "FsType" => FsType,
        "Group" => Group,
        "GroupId" => GroupId,
        "Parents" => Parents,
        "StartingPoint" => StartingPoint,
        "InodeDecimal" => InodeDecimal,
        "DiskSizeKilos" => DiskSizeKilos,
        "SymbolicTarget" => SymbolicTarget,
        "PermissionsOctal" => PermissionsOctal,
        "PermissionsSymbolic" => PermissionsSymbolic,
        "Hardlinks" => Hardlinks,
        "Name" => Name,
        "NameWithoutStartingPoint" => NameWithoutStartingPoint,
        "DiskSizeBytes" => DiskSizeBytes,
        "Sparseness" => Sparseness,
        "Modify" => Modify,
        "ModifyFormatted" => ModifyFormatted(de_char(t)),
        "User" => User,
        "UserId" => UserId,
        "Type" => Type,
        "TypeSymlink" => TypeSymlink,
        "SecurityContext" => SecurityContext,
        "FileId" => FileId,
        "ProjectId" => ProjectId,
        "MirrorCount" => MirrorCount,
        "StripeCount" => StripeCount,
        "StripeSize" => StripeSize,
        "XAttr" => XAttr(t.string()),
        x => panic!("bad field {x}"),
    }
}

fn de_special(t: &mut Toks) -> FormatSpecial {
    use FormatSpecial::*;
    match t.next() {
        "Alarm" => Alarm,
        "Backspace" => Backspace,
        "Clear" => Clear,
        "Form" => Form,
        "Newline" => Newline,
        "CarriageReturn" => CarriageReturn,
        "TabHorizontal" => TabHorizontal,
        "TabVertical" => TabVertical,
        "Null" => Null,
        "Backslash" => Backslash,
        "Ascii" => Ascii(t.num()),
        x => panic!("bad special {x}"),
    }
}

fn de_fmt(t: &mut Toks) -> Vec<FormatElement> {
    let n: usize = t.num();
    (0..n)
        .map(|_| match t.next() {
            "L" => FormatElement::Literal(t.string()),
            "F" => FormatElement::Field(de_field(t)),
            "X" => FormatElement::Special(de_special(t)),
            x => panic!("bad element {x}"),
        })
        .collect()
}

#[allow(deprecated)]
fn de_action(t: &mut Toks) -> Action {
    match t.next() {
        "FileList" => Action::FileList(t.string()),
        "FilePrint" => Action::FilePrint(t.string()),
        "FilePrintNull" => Action::FilePrintNull(t.string()),
        "FilePrintFormatted" => {
            let s = t.string();
            Action::FilePrintFormatted(s, de_fmt(t))
        }
        "List" => Action::List,
        "Print" => Action::Print,
        "PrintNull" => Action::PrintNull,
        "PrintFormatted" => Action::PrintFormatted(de_fmt(t)),
        "PrintFid" => Action::PrintFid,
        "Prune" => Action::Prune,
        "Quit" => Action::Quit,
        "DefaultPrint" => Action::DefaultPrint,
        x => panic!("bad action {x}"),
    }
}

fn de_expr(t: &mut Toks) -> Expression {
    let op = |o: Operator| Expression::Operator(Rc::new(o));
    match t.next() {
        "And" => {
            let a = de_expr(t);
            let b = de_expr(t);
            op(Operator::And(a, b))
        }
        "Or" => {
            let a = de_expr(t);
            let b = de_expr(t);
            op(Operator::Or(a, b))
        }
        "List" => {
            let a = de_expr(t);
            let b = de_expr(t);
            op(Operator::List(a, b))
        }
        // the SAME subtree on both sides (one allocation shared through Rc clones): only the public
        // constructors can build this, a parse never does
        "DupAnd" => {
            let a = de_expr(t);
            op(Operator::And(a.clone(), a))
        }
        "DupOr" => {
            let a = de_expr(t);
            op(Operator::Or(a.clone(), a))
        }
        "DupList" => {
            let a = de_expr(t);
            op(Operator::List(a.clone(), a))
        }
        "Not" => op(Operator::Not(de_expr(t))),
        "Prec" => op(Operator::Precedence(de_expr(t))),
        "T" => Expression::Test(de_test(t)),
        "A" => Expression::Action(de_action(t)),
        "G" => Expression::Global(match t.next() {
            "Depth" => GlobalOption::Depth,
            "MaxDepth" => GlobalOption::MaxDepth(t.num()),
            "MinDepth" => GlobalOption::MinDepth(t.num()),
            "Threads" => GlobalOption::Threads(t.num()),
            x => panic!("bad global {x}"),
        }),
        "P" => {
            t.next();
            Expression::Positional(PositionalOption::XDev)
        }
        x => panic!("bad expr {x}"),
    }
}

// ---------------------------------------------------------------- observations

fn now() -> u64 {
    SystemTime::now()
        .duration_since(UNIX_EPOCH)
        .unwrap()
        .as_secs()
}

fn ser_target(t: &Target) -> String {
    let term = |c: &Option<char>| match c {
        None => "-".to_string(),
        Some(c) => format!("{:x}", *c as u32),
    };
    match t {
        Target::Stdout(c) => format!("Stdout {}", term(c)),
        Target::File(f, c) => format!("File {} {}", ser_str(f), term(c)),
    }
}

fn ser_iomap(m: &Option<std::collections::HashMap<u32, Target>>) -> String {
    match m {
        None => "none".into(),
        Some(m) => {
            let mut keys: Vec<_> = m.keys().copied().collect();
            keys.sort();
            let mut s = format!("map {}", keys.len());
            for k in keys {
                s.push_str(&format!(" {} {}", k, ser_target(&m[&k])));
            }
            s
        }
    }
}

/// a borrowed slice that starts at an odd offset inside a larger buffer (callers of a library do
/// pass such slices; an owned String is always aligned)
fn unaligned(text: &str) -> (String, usize) {
    let k = 1 + text.len() % 7;
    let mut padded = "#".repeat(k);
    padded.push_str(text);
    (padded, k)
}

fn obs_parse(input: &str) -> (String, Option<(RunOptions, Expression)>) {
    let (padded, k) = unaligned(input);
    match catch_unwind(move || parse(&padded[k..])) {
        Err(_) => ("PANIC".into(), None),
        Ok(Err(e)) => {
            let msg = catch_unwind(AssertUnwindSafe(|| e.to_string()));
            match msg {
                Ok(m) => (format!("ERR {}", esc(&m)), None),
                Err(_) => ("ERR-DISPLAY-PANIC".into(), None),
            }
        }
        Ok(Ok((o, e))) => {
            // equal inputs give EQUAL results: a second parse of the same text and a clone must compare
            // equal under the library's own PartialEq
            let again = catch_unwind(|| parse(input).ok());
            let same = match &again {
                Ok(Some((o2, e2))) => o2.depth == o.depth && o2.threads == o.threads && *e2 == e && e.clone() == e,
                _ => false,
            };
            let mut s = format!(
                "{}OK {} {} ",
                if same { "" } else { "NEQ-SELF " },
                if o.depth { 1 } else { 0 },
                o.threads.map(|t| t.to_string()).unwrap_or("-".into())
            );
            ser_expr(&e, &mut s);
            (s, Some((o, e)))
        }
    }
}

/// compile + render; the clock is read before and after and the whole step is retried until both
/// readings agree, so that the model can be run with that single reading.
fn obs_compile(e: &Expression, o: &RunOptions, mdts: &[String], with_map_between: bool) -> String {
    for _attempt in 0..5 {
        let t0 = now();
        let r = catch_unwind(AssertUnwindSafe(|| match compile(e, o) {
            Err(err) => {
                let (variant, payload) = split_debug(&format!("{:?}", err));
                format!("CERR {} {} {}", variant, esc(&payload).replace(' ', "\\x20;"), esc(&err.to_string()))
            }
            Ok(c) => {
                let mut s = String::new();
                let m0 = ser_iomap(&c.io_map());
                s.push_str(&format!("COK {}", m0));
                for mdt in mdts {
                    let (padded, k) = unaligned(mdt);
                    let text = c.scheme(&padded[k..]);
                    s.push_str(&format!(" | {}", esc(&text)));
                    if with_map_between {
                        let m = ser_iomap(&c.io_map());
                        if m != m0 {
                            s.push_str(" | IOMAP-CHANGED");
                        }
                    }
                }
                s
            }
        }));
        let t1 = now();
        if t0 == t1 {
            return match r {
                Ok(s) => format!("clock {} {}", t0, s),
                Err(_) => format!("clock {} CPANIC", t0),
            };
        }
    }
    "CLOCK-UNSTABLE".into()
}

fn run_case(line: &str) -> String {
    let mut parts = line.splitn(2, ' ');
    let kind = parts.next().unwrap_or("");
    let rest = parts.next().unwrap_or("");
    match kind {
        "P" => obs_parse(&hex_to_string(rest)).0,
        "PC" => {
            let f: Vec<&str> = rest.split(' ').collect();
            let (s, r) = obs_parse(&hex_to_string(f[0]));
            match r {
                None => s,
                Some((o, e)) => {
                    let mdt = hex_to_string(f.get(1).copied().unwrap_or(""));
                    format!("{} || {}", s, obs_compile(&e, &o, &[mdt], false))
                }
            }
        }
        "R" => {
            let f: Vec<&str> = rest.split(' ').collect();
            let (s, r) = obs_parse(&hex_to_string(f[0]));
            match r {
                None => s,
                Some((o, e)) => {
                    let n: usize = f[1].parse().unwrap();
                    let mdts: Vec<String> = (0..n).map(|i| hex_to_string(f[2 + i])).collect();
                    format!("{} || {}", s, obs_compile(&e, &o, &mdts, true))
                }
            }
        }
        "FS" => obs_fs_state(&hex_to_string(rest)),
        "D" => {
            let f: Vec<&str> = rest.split(' ').collect();
            let input = hex_to_string(f[0]);
            let mdt = hex_to_string(f[1]);
            let k: usize = f[2].parse().unwrap();
            let mut outs = vec![];
            for _ in 0..k {
                let (s, r) = obs_parse(&input);
                outs.push(match r {
                    None => s,
                    Some((o, e)) => {
                        format!("{} || {}", s, obs_compile(&e, &o, &[mdt.clone()], false))
                    }
                });
                // unrelated compilation in between
                if let Ok((o, e)) = parse("-name zz* -o -fprint q -iname zz*") {
                    let _ = compile(&e, &o).map(|c| c.scheme("x"));
                }
            }
            let first = outs[0].clone();
            // differing clocks are fine; compare modulo the clock by reporting all distinct lines
            outs.dedup();
            if outs.len() == 1 {
                first
            } else {
                format!("NONDET {}", outs.join(" ## "))
            }
        }
        "T" => {
            let mut t = Toks {
                v: rest.split(' ').collect(),
                i: 0,
            };
            let e = de_expr(&mut t);
            let a = catch_unwind(AssertUnwindSafe(|| e.action()));
            let c = catch_unwind(AssertUnwindSafe(|| e.complex_frames()));
            let mut back = String::new();
            ser_expr(&e, &mut back);
            format!(
                "action {} frames {} tree {}",
                a.map(|b| (b as u8).to_string()).unwrap_or("PANIC".into()),
                c.map(|b| (b as u8).to_string()).unwrap_or("PANIC".into()),
                back
            )
        }
        "TC" => {
            let f: Vec<&str> = rest.splitn(4, ' ').collect();
            let o = RunOptions {
                depth: f[0] == "1",
                threads: if f[1] == "-" {
                    None
                } else {
                    Some(f[1].parse().unwrap())
                },
            };
            let mdt = hex_to_string(f[2]);
            let mut t = Toks {
                v: f[3].split(' ').collect(),
                i: 0,
            };
            let e = de_expr(&mut t);
            obs_compile(&e, &o, &[mdt], false)
        }
        "U" => {
            let mut t = Toks {
                v: rest.split(' ').collect(),
                i: 0,
            };
            let s = de_size(&mut t);
            let m = s.mult();
            let b = catch_unwind(AssertUnwindSafe(|| s.byte_size()));
            format!(
                "mult {} bytes {}",
                m,
                b.map(|b| b.to_string()).unwrap_or("PANIC".into())
            )
        }
        "Z" => {
            std::thread::sleep(std::time::Duration::from_millis(rest.trim().parse().unwrap_or(0)));
            "slept".into()
        }
        "V" => {
            let mut t = Toks {
                v: rest.split(' ').collect(),
                i: 0,
            };
            format!("secs {}", de_time(&mut t).secs())
        }
        _ => format!("BAD-CASE {}", esc(line)),
    }
}

/// `FS text`: the state of the host's file system is no input of parse/compile. `@T@` in the text
/// stands for a fresh temporary directory; the expression is parsed, compiled and rendered, then every
/// file destination it names under that directory (and a few fixed names) is created, and the same
/// is done again: both answers must be equal. The directory is removed afterwards.
fn obs_fs_state(text: &str) -> String {
    use std::sync::atomic::{AtomicUsize, Ordering};
    static N: AtomicUsize = AtomicUsize::new(0);
    let dir = std::env::temp_dir().join(format!("fpharness-fs-{}-{}", std::process::id(), N.fetch_add(1, Ordering::SeqCst)));
    if std::fs::create_dir_all(&dir).is_err() {
        return "FS SKIPPED".into();
    }
    let d = dir.to_string_lossy().to_string();
    let input = text.replace("@T@", &d);
    let strip = |s: String| -> String {
        // drop the clock reading (and the number wherever it is embedded)
        match s.find("clock ") {
            Some(i) => {
                let num: String = s[i + 6..].chars().take_while(|c| c.is_ascii_digit()).collect();
                if num.is_empty() { s } else { s.replace(&num, "*") }
            }
            None => s,
        }
    };
    let run = |input: &str| -> (String, Vec<String>) {
        let (s, r) = obs_parse(input);
        match r {
            None => (s, vec![]),
            Some((o, e)) => {
                let mut files = vec![];
                if let Ok(Ok(c)) = catch_unwind(AssertUnwindSafe(|| compile(&e, &o))) {
                    if let Some(m) = c.io_map() {
                        for t in m.values() {
                            if let Target::File(f, _) = t {
                                files.push(f.clone());
                            }
                        }
                    }
                }
                (format!("{} || {}", s, obs_compile(&e, &o, &[d.clone()], false)), files)
            }
        }
    };
    let (first, files) = run(&input);
    for f in files.iter().map(|x| x.as_str()).chain(["out", "d/f", "x"].iter().map(|x| *x)) {
        let path = if f.starts_with(&d) { std::path::PathBuf::from(f) } else { dir.join(f) };
        if path.starts_with(&dir) {
            if let Some(parent) = path.parent() {
                let _ = std::fs::create_dir_all(parent);
            }
            let _ = std::fs::write(&path, b"");
        }
    }
    let (second, _) = run(&input);
    let _ = std::fs::remove_dir_all(&dir);
    let (a, b) = (strip(first), strip(second));
    if a == b {
        "FS SAME".into()
    } else {
        format!("FS DIFF before: {} after: {}", a.replace(&d, "@T@").chars().take(600).collect::<String>(), b.replace(&d, "@T@").chars().take(600).collect::<String>())
    }
}

/// `--logger`: a logger that is enabled at every level and FORMATS every record (so that the arguments
/// of the library's log macros are evaluated), then discards it. The library's results must not
/// depend on whether the embedding program has installed a logger.
struct SinkLogger;
impl log::Log for SinkLogger {
    fn enabled(&self, _: &log::Metadata) -> bool {
        true
    }
    fn log(&self, record: &log::Record) {
        let text = format!("{}", record.args());
        std::hint::black_box(text.len());
    }
    fn flush(&self) {}
}
static SINK_LOGGER: SinkLogger = SinkLogger;

fn main() {
    std::panic::set_hook(Box::new(|_| {}));
    if std::env::args().any(|a| a == "--logger") {
        let _ = log::set_logger(&SINK_LOGGER);
        log::set_max_level(log::LevelFilter::Trace);
    }
    let stdin = std::io::stdin();
    let stdout = std::io::stdout();
    let mut out = std::io::BufWriter::new(stdout.lock());
    for line in stdin.lock().lines() {
        let line = line.unwrap();
        let r = catch_unwind(AssertUnwindSafe(|| run_case(&line)));
        let s = r.unwrap_or_else(|_| "HARNESS-PANIC".into());
        writeln!(out, "{}", s).unwrap();
    }
}
