#!/usr/bin/env python3
"""Confirms each candidate mutant delivered by a sub-agent in a scratch worktree of /repo:
with the patch: the crate builds, the 45 existing tests pass, the demo fails;
without it: the demo passes. Confirmed mutants are copied to /verif/seeded/<prop>-<k>/."""
import json, os, re, shutil, subprocess, sys
SRC = os.environ.get("SEEDED_SRC", "/tmp/mut/out")
WT = os.path.join(os.path.dirname(SRC), "verify")
TAG = os.environ.get("SEEDED_TAG", "")
def sh(cmd, cwd=None, timeout=1200):
    p = subprocess.run(cmd, shell=True, cwd=cwd, capture_output=True, text=True, timeout=timeout,
                       env=dict(os.environ, CARGO_NET_OFFLINE="true"))
    return p.returncode, p.stdout + p.stderr
if not os.path.exists(WT):
    print(sh("git -C /repo worktree add --detach %s HEAD" % WT)[1])
else:
    sh("git checkout -q --detach $(git -C /repo rev-parse HEAD) && git checkout -- . && git clean -fdq -e target", cwd=WT)
only = sys.argv[1:]
report = {}
for prop in sorted(os.listdir(SRC)):
    d = os.path.join(SRC, prop)
    if not os.path.isdir(d): continue
    if only and prop not in only: continue
    for m in sorted(os.listdir(d)):
        md = os.path.join(d, m)
        patch, demo = os.path.join(md, "patch.diff"), os.path.join(md, "demo.rs")
        if not (os.path.exists(patch) and os.path.exists(demo)): continue
        name = "%s-%s%s" % (prop, TAG, m)
        sh("git reset -q --hard && git clean -fdq -e target", cwd=WT)
        rc, out = sh("git apply %s" % patch, cwd=WT)
        if rc != 0:
            rc, out = sh("git apply --3way %s" % patch, cwd=WT)
        if rc != 0:
            report[name] = "patch does not apply: " + out[-300:]; print(name, report[name]); continue
        os.makedirs(os.path.join(WT, "tests"), exist_ok=True)
        shutil.copy(demo, os.path.join(WT, "tests", "demo.rs"))
        rc, out = sh("cargo test --offline 2>&1", cwd=WT)
        lib = re.search(r"test result: (\w+)\. (\d+) passed; (\d+) failed", out)
        results = re.findall(r"test result: (\w+)\. (\d+) passed; (\d+) failed", out)
        lib_ok = bool(results) and results[0][0] == "ok" and results[0][1] == "45"
        demo_fail = any(r[0] == "FAILED" for r in results[1:]) or ("error: test failed" in out and lib_ok)
        sh("git reset -q --hard", cwd=WT)
        rc2, out2 = sh("cargo test --offline --test demo 2>&1", cwd=WT)
        demo_pass_clean = rc2 == 0 and "test result: ok" in out2
        os.remove(os.path.join(WT, "tests", "demo.rs"))
        ok = lib_ok and demo_fail and demo_pass_clean
        report[name] = "confirmed" if ok else "REJECTED lib_ok=%s demo_fail=%s demo_pass_clean=%s" % (lib_ok, demo_fail, demo_pass_clean)
        print(name, report[name], flush=True)
        if ok:
            dst = os.path.join("/verif/seeded", name)
            os.makedirs(dst, exist_ok=True)
            sh("git diff > /dev/null", cwd=WT)
            # store the patch as it applies to the current /repo HEAD
            sh("git apply %s || git apply --3way %s" % (patch, patch), cwd=WT)
            rc, diff = sh("git diff", cwd=WT)
            open(os.path.join(dst, "patch.diff"), "w").write(diff)
            sh("git reset -q --hard", cwd=WT)
            shutil.copy(demo, os.path.join(dst, "demo.rs"))
            meta = json.load(open(os.path.join(md, "meta.json"))) if os.path.exists(os.path.join(md, "meta.json")) else {}
            meta["confirmed_by"] = ["git apply patch.diff in a scratch worktree of /repo HEAD %s" % sh("git -C /repo rev-parse --short HEAD")[1].strip(),
                                    "cargo test --offline: 45 existing tests pass, demo test fails",
                                    "patch reverted: cargo test --offline --test demo passes"]
            json.dump(meta, open(os.path.join(dst, "meta.json"), "w"), indent=1)
json.dump(report, open(os.path.join(os.path.dirname(SRC), "verify_report.json"), "w"), indent=1)
