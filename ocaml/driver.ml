(* Driver around the extracted Coq model: one case line in, one observation line out.
   Only I/O and the int <-> N conversion live here. *)

let rec pos_of_int (n : int) : Model.positive =
  if n = 1 then Model.XH
  else if n land 1 = 0 then Model.XO (pos_of_int (n lsr 1))
  else Model.XI (pos_of_int (n lsr 1))

let n_of_int (n : int) : Model.n = if n = 0 then Model.N0 else Model.Npos (pos_of_int n)

let rec int_of_pos (p : Model.positive) : int =
  match p with Model.XH -> 1 | Model.XO q -> 2 * int_of_pos q | Model.XI q -> 2 * int_of_pos q + 1

let int_of_n (x : Model.n) : int = match x with Model.N0 -> 0 | Model.Npos p -> int_of_pos p

let to_model (s : string) : Model.n list =
  List.init (String.length s) (fun i -> n_of_int (Char.code s.[i]))

let of_model (l : Model.n list) : string =
  let b = Buffer.create 256 in
  List.iter (fun c -> Buffer.add_char b (Char.chr (int_of_n c land 255))) l;
  Buffer.contents b

let () =
  try
    while true do
      let line = input_line stdin in
      let out = try of_model (Model.run_case (to_model line)) with Stack_overflow -> "MODEL-STACK-OVERFLOW" in
      print_string out;
      print_newline ()
    done
  with End_of_file -> ()
