#!/usr/bin/env python3
"""Reverts each fix: commit of /repo in the working tree (reverse patch), runs the quick checks of the
properties the defect concerns, restores the tree. Development tool; results in seeded/REVERTS.json."""
import json, os, re, subprocess
ROOT = os.path.dirname(os.path.abspath(__file__))
def sh(cmd, cwd=None, env=None, timeout=3600):
    e = dict(os.environ); e.update(env or {})
    p = subprocess.run(cmd, shell=True, cwd=cwd, capture_output=True, text=True, timeout=timeout, env=e)
    return p.returncode, p.stdout + p.stderr
fixed = json.load(open(os.path.join(ROOT, "known_findings.json")))["fixed"]
by_commit = {}
for line in fixed:
    m = re.match(r"fixed: property=(C\d+) (\w+) (.*)", line)
    by_commit.setdefault(m.group(2), []).append((m.group(1), m.group(3)))
assert sh("git -C /repo status --porcelain")[1].strip() == ""
res = {}
for commit, items in by_commit.items():
    rc, out = sh("git -C /repo diff %s %s^ | git -C /repo apply" % (commit, commit))
    if rc != 0:
        res[commit] = {"error": "reverse patch does not apply on top of later fixes: " + out[-200:]}
        sh("git -C /repo checkout -- .")
        print(commit, "reverse patch does not apply"); continue
    rc, out = sh("cd /repo && cargo test --offline 2>&1 | grep -c 'test result: ok. 45 passed'")
    res[commit] = {"tests_45_pass": out.strip() == "1", "props": {}}
    try:
        for prop in sorted(set(p for p, _ in items)):
            rc, out = sh("./check %s --tier quick" % prop, cwd=ROOT, env={"VERIF_SKIP_COQ": "1"})
            viol = [l for l in out.split("\n") if l.startswith("VIOLATION")]
            res[commit]["props"][prop] = {"detected": rc == 1 and bool(viol), "violation": viol[:1]}
            print(commit, prop, rc == 1 and bool(viol), viol[:1], flush=True)
    finally:
        sh("git -C /repo checkout -- .")
    json.dump(res, open(os.path.join(ROOT, "seeded", "REVERTS.json"), "w"), indent=1)
assert sh("git -C /repo status --porcelain")[1].strip() == ""
