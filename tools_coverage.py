#!/usr/bin/env python3
"""tools_coverage.py [tier] [Cxx ...]: lines of /repo/src reached by the union of the generated cases
of the given properties (default all).  Development tool used to find code no generator reaches;
writes work/coverage.json and prints the unreached lines."""
import json, os, random, sys
ROOT = os.path.dirname(os.path.abspath(__file__))
sys.path.insert(0, ROOT)
from vlib import core, srccov
from vlib.props import PROPS

def main():
    tier = sys.argv[1] if len(sys.argv) > 1 else "quick"
    only = sys.argv[2:]
    ok, log = srccov.build()
    if not ok:
        print(log); sys.exit(2)
    groups, counts = [], {}
    for pid, prop in sorted(PROPS.items()):
        if only and pid not in only: continue
        cases = [c for c, _ in prop.cases(tier, random.Random(1))]
        groups += [cases[i::4] for i in range(4)]
        if hasattr(prop, "sequences"):
            groups += [list(s) for s in prop.sequences(tier, random.Random(2))]
        counts[pid] = len(cases)
    prof = srccov.run(groups, "all", nproc=16)
    summary, uncovered = srccov.report(prof)
    json.dump({"tier": tier, "cases": counts, "summary": summary,
               "uncovered_lines": uncovered}, open(os.path.join(core.WORK, "coverage.json"), "w"), indent=1)
    for f, v in summary.items(): print("%-32s %s" % (f, v["line_cover"]))
    for f, ls in uncovered.items():
        print("==", f)
        for n_, t in ls: print("  %5d  %s" % (n_, t))

if __name__ == "__main__":
    main()
