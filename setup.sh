#!/bin/sh
# Build the framework from files on disk only (offline): Coq development (full .vo build),
# extraction, OCaml driver, Rust harness (debug + release) against /repo's working tree.
set -e
cd "$(dirname "$0")"
export CARGO_NET_OFFLINE=true
./check build-all
